# -*- coding: utf-8 -*-
"""C19 — parsing work is bounded linearly by the input size.

Work = interpreter LINE events counted with sys.monitoring (deterministic for a given input), depth = Python frames
entered below the parse entry point.  Scalable input shapes are measured at n, 2n, 4n, 8n (doubling test) and every
measured input is held against an absolute per-byte bound.
"""
import random
import time

from vf.core import lib, pool, targets
from vf.core.meter import Meter
from vf.core.stats import Finding, Stats
from vf.gen import mutate, registry, seeds

ID = 'C19'
LEVEL = 'exploration'
RULE = ('scalable shapes f(n) are measured at n, 2n, 4n, 8n (quick n = 128, thorough n = 1024): hand-written shapes per '
        'container kind (many list items with a correct length prefix, many headers / directives / terms / sources, one '
        'huge value, no separator at all, separator runs, maximal declared counts and lengths with little data, '
        'colon-less / equals-less lines, huge digit strings, deep repetition of the nesting the grammar allows) and, for '
        'every concrete class, generic pumped shapes from its seeds (a seed with one segment repeated k times, the seed '
        'repeated, constant fills); in addition seeded mutants of the seeds are measured once each against the '
        'absolute bound. Declared amounts: for every accepted seed (<= 2 KiB) the offsets where the parser reads a '
        '2/3/4/8-byte quantity are found by cutting the seed at every offset (NotEnoughData(width)); at each the '
        'field is set to a quarter of and to the whole maximum of its width, with and without the rest of the seed '
        'behind it, and the two parses must cost about the same. Non-trivial: the input reaches the pumped loop '
        '(accepted, or steps >= len/4), every declared-amount probe. Distinct by (class, shape, n) / (class, seed, '
        'offset, width, variant).')
ASSUMPTIONS = [
    'interpreter-level steps (LINE events of all Python code run by the call, dependencies included) are what is '
    'bounded; C-level work (slice copies, list.insert(0, ...)) and wall time are not visible to the meter',
    'linear means: the marginal cost per added byte between 4n and 8n is at most 1.5x (+30 steps/byte) the marginal '
    'cost between n and 2n when all four sizes end in the same outcome (quadratic work gives 4x) - reported only when '
    'the marginal cost also grows by more than 1.25x (+15) at each of the two doublings in between, so that a single '
    'jump from "gives up at once" to "does the linear work" is not taken for growth - and steps <= 20000 '
    '+ 6000 * len(input) for every measured input; depth must not grow strictly with n and stay <= 120 frames',
    'a measurement is cut off at 4x the absolute bound (the call is then reported, not waited for)',
    'declared amounts: two same-sized inputs that announce 0x3fff.. and 0xffff.. in one length / count field and end '
    'in the same outcome may differ by a factor of two plus 2000 steps (a one-byte field can never exceed that and '
    'is not probed)',
]

STEPS_PER_BYTE = 6000
STEPS_BASE = 20000
MAX_DEPTH = 120


def u(value, width, order='big'):
    return int(value).to_bytes(width, order)


# ---------------------------------------------------------------------------------------------------
# hand-written scalable shapes: (class ref, shape name, builder(n) -> bytes)
# ---------------------------------------------------------------------------------------------------

T = 'cryptoparser.tls.'
S = 'cryptoparser.ssh.'
H = 'cryptoparser.httpx.header:'
D = 'cryptoparser.dnsrec.'


def _hello(suites=b'\x00\x2f', extensions=None, session=b''):
    body = b'\x03\x03' + b'\x00' * 32 + u(len(session), 1) + session + u(len(suites), 2) + suites + b'\x01\x00'
    if extensions is not None:
        body += u(len(extensions), 2) + extensions
    return b'\x01' + u(len(body), 3) + body


def _ext(ext_type, data):
    return u(ext_type, 2) + u(len(data), 2) + data


def _ssh_string(data):
    return u(len(data), 4) + data


def _kexinit(lists):
    body = b'\x14' + b'\x00' * 16
    for index in range(10):
        body += _ssh_string(lists.get(index, b''))
    return body + b'\x00' + b'\x00' * 4


def _clamp(n, top):
    return min(n, top)


def _nested_v00_certificate(levels):
    """An OpenSSH v00 RSA certificate whose signature key is again such a certificate, `levels` deep (chained
    certificates are not supported by the format: a parser either refuses the inner one or recurses)."""
    exponent, modulus = _ssh_string(b'\x01\x00\x01'), _ssh_string(b'\x00\xc1' + b'\x23' * 31)
    key = _ssh_string(b'ssh-rsa') + exponent + modulus
    signature = _ssh_string(_ssh_string(b'ssh-rsa') + _ssh_string(b'\x00' * 8))
    for _ in range(levels):
        key = (_ssh_string(b'ssh-rsa-cert-v00@openssh.com') + exponent + modulus + u(2, 4) + _ssh_string(b'id') + _ssh_string(b'')
               + u(0, 8) + u(2 ** 64 - 1, 8) + _ssh_string(b'') + _ssh_string(b'') + _ssh_string(b'') + _ssh_string(key) + signature)
    return key


SHAPES = [
    # --- TLS binary containers
    (T + 'subprotocol:TlsHandshakeClientHello', 'many-cipher-suites', lambda n: _hello(suites=b'\x00\x2f' * _clamp(n, 32000))),
    (T + 'subprotocol:TlsHandshakeClientHello', 'many-unknown-suites', lambda n: _hello(suites=b'\x7a\x7a' * _clamp(n, 32000))),
    # the signalling suites are taken out of the list by the parser: many of them, behind, before and between many
    # ordinary suites (removal from a list is where quadratic scans hide)
    (T + 'subprotocol:TlsHandshakeClientHello', 'suites-then-many-scsv',
     lambda n: _hello(suites=b'\x00\x2f' * _clamp(n // 2, 16000) + b'\x00\xff' * _clamp(n // 2, 16000))),
    (T + 'subprotocol:TlsHandshakeClientHello', 'suites-then-both-scsv',
     lambda n: _hello(suites=b'\xc0\x2f' * _clamp(n // 2, 16000) + b'\x56\x00\x00\xff' * _clamp(n // 4, 8000))),
    (T + 'subprotocol:TlsHandshakeClientHello', 'many-scsv-then-suites',
     lambda n: _hello(suites=b'\x56\x00' * _clamp(n // 2, 16000) + b'\x00\x2f' * _clamp(n // 2, 16000))),
    (T + 'subprotocol:TlsHandshakeClientHello', 'scsv-interleaved',
     lambda n: _hello(suites=b'\x00\x2f\x00\xff\x13\x01\x56\x00' * _clamp(n // 4, 8000))),
    (T + 'subprotocol:TlsHandshakeClientHello', 'many-unknown-extensions',
     lambda n: _hello(extensions=b''.join(_ext(0xff00 + (i % 200), b'') for i in range(_clamp(n, 16000))))),
    (T + 'subprotocol:TlsHandshakeClientHello', 'one-huge-extension', lambda n: _hello(extensions=_ext(0xff55, b'\x00' * _clamp(n * 4, 65000)))),
    (T + 'subprotocol:TlsHandshakeClientHello', 'many-groups',
     lambda n: _hello(extensions=_ext(10, u(2 * _clamp(n, 32000), 2) + b'\x00\x17' * _clamp(n, 32000)))),
    (T + 'subprotocol:TlsHandshakeClientHello', 'many-alpn-names',
     lambda n: _hello(extensions=_ext(16, u(3 * _clamp(n, 21000), 2) + b'\x02h2' * _clamp(n, 21000)))),
    (T + 'subprotocol:TlsHandshakeClientHello', 'many-key-shares',
     lambda n: _hello(extensions=_ext(51, u(5 * _clamp(n, 13000), 2) + b'\x00\x1d\x00\x01\x00' * _clamp(n, 13000)))),
    (T + 'subprotocol:TlsHandshakeClientHello', 'declared-length-max', lambda n: b'\x01\xff\xff\xff' + b'\x03\x03' + b'\x00' * n),
    (T + 'subprotocol:TlsHandshakeMessageVariant', 'many-cipher-suites', lambda n: _hello(suites=b'\x00\x2f' * _clamp(n, 32000))),
    (T + 'subprotocol:TlsHandshakeCertificate', 'many-certificates',
     lambda n: (lambda body: b'\x0b' + u(len(body) + 3, 3) + u(len(body), 3) + body)(b'\x00\x00\x01\x30' * n)),
    (T + 'subprotocol:TlsHandshakeCertificateRequest', 'many-authorities',
     lambda n: (lambda dn: (lambda body: b'\x0d' + u(len(body), 3) + body)(b'\x01\x01' + u(len(dn), 2) + dn))(b'\x00\x01\x30' * _clamp(n, 21000))),
    (T + 'extension:TlsExtensionsClient', 'many-unknown-extensions',
     lambda n: (lambda body: u(len(body), 2) + body)(b''.join(_ext(0xff00 + (i % 200), b'') for i in range(_clamp(n, 16000))))),
    (T + 'extension:TlsExtensionsServer', 'many-known-unparsed', lambda n: (lambda body: u(len(body), 2) + body)(_ext(1, b'\x01') * _clamp(n, 13000))),
    (T + 'extension:TlsSupportedVersionVector', 'full', lambda n: u(2 * _clamp(n, 127), 1) + b'\x03\x03' * _clamp(n, 127)),
    (T + 'subprotocol:TlsCipherSuiteVector', 'many-items', lambda n: u(2 * _clamp(n, 32767), 2) + b'\xc0\x2f' * _clamp(n, 32767)),
    (T + 'record:TlsRecord', 'big-fragment', lambda n: b'\x16\x03\x03' + u(_clamp(n * 8, 65535), 2) + b'\x00' * _clamp(n * 8, 65535)),
    (T + 'record:TlsRecord', 'declared-max-little-data', lambda n: b'\x16\x03\x03\xff\xff' + b'\x00' * n),
    (T + 'record:SslRecord', 'many-cipher-kinds',
     lambda n: (lambda body: u(0x8000 | len(body), 2) + body)(b'\x01\x00\x02' + u(3 * _clamp(n, 10000), 2) + b'\x00\x00\x00\x10' + b'\x01\x00\x80' * _clamp(n, 10000) + b'\x00' * 16)),
    ('cryptoparser.common.x509:SignedCertificateTimestampList', 'many-scts',
     lambda n: (lambda sct: u(len(sct) * _clamp(n, 1300), 2) + sct * _clamp(n, 1300))(
         (lambda body: u(len(body), 2) + body)(b'\x00' + b'\x11' * 32 + b'\x00' * 8 + b'\x00\x00' + b'\x04\x03' + b'\x00\x00'))),
    # --- SSH
    (S + 'subprotocol:SshKeyExchangeInit', 'many-known-kex-names', lambda n: _kexinit({0: b','.join([b'curve25519-sha256'] * n)})),
    (S + 'subprotocol:SshKeyExchangeInit', 'many-unknown-names', lambda n: _kexinit({2: b','.join([b'x'] * n)})),
    (S + 'subprotocol:SshKeyExchangeInit', 'one-huge-name', lambda n: _kexinit({4: b'a' * (n * 8)})),
    (S + 'subprotocol:SshKeyExchangeInit', 'comma-run', lambda n: _kexinit({6: b',' * n})),
    (S + 'subprotocol:SshKeyExchangeInit', 'many-languages', lambda n: _kexinit({8: b','.join([b'en-US'] * n)})),
    (S + 'subprotocol:SshProtocolMessage', 'long-comment', lambda n: b'SSH-2.0-OpenSSH_8.9 ' + b'c ' * n + b'\r\n'),
    (S + 'subprotocol:SshProtocolMessage', 'no-newline', lambda n: b'SSH-2.0-' + b'a' * (n * 8)),
    (S + 'key:SshCertValidPrincipals', 'many-principals', lambda n: (lambda body: u(len(body), 4) + body)(_ssh_string(b'p') * n)),
    (S + 'key:SshCertExtensionVector', 'many-unknown-options',
     lambda n: (lambda body: u(len(body), 4) + body)((_ssh_string(b'x@y') + _ssh_string(b'')) * n)),
    (S + 'key:SshX509CertificateChain', 'declared-count-max',
     lambda n: _ssh_string(b'x509v3-ssh-rsa') + b'\xff\xff\xff\xff' + b'\x00' * n),
    (S + 'key:SshHostPublicKeyVariant', 'nested-v00-certificates', lambda n: _nested_v00_certificate(max(1, n // 16))),
    (S + 'key:SshHostCertificateV00RSA', 'nested-v00-certificates', lambda n: _nested_v00_certificate(max(1, n // 16))),
    (S + 'key:SshHostKeyRSA', 'huge-modulus', lambda n: _ssh_string(b'ssh-rsa') + _ssh_string(b'\x01\x00\x01') + _ssh_string(b'\x7f' * (n * 8))),
    (S + 'record:SshRecordInit', 'big-kexinit',
     lambda n: (lambda payload: u(len(payload) + 1 + 4, 4) + b'\x04' + payload + b'\x00' * 4)(_kexinit({0: b','.join([b'a'] * n)}))),
    # --- DNS
    (D + 'record:DnsNameUncompressed', 'many-labels', lambda n: b'\x01a' * n + b'\x00'),
    (D + 'record:DnsRecordTxt', 'many-strings', lambda n: b'\x01a' * n),
    (D + 'record:DnsRecordTxt', 'full-strings', lambda n: (b'\xff' + b'a' * 255) * max(1, n // 32)),
    (D + 'record:DnsRecordMx', 'many-labels', lambda n: b'\x00\x0a' + b'\x03abc' * n + b'\x00'),
    # RFC 3110 three-octet exponent length / RFC 2536 T octet announcing the maximum with little key data behind it
    # ("little" is meant: a handful of octets whatever n, so that the announced amount is all that could drive work)
    (D + 'record:DnsRecordDnskey', 'rsa-declared-exponent-max',
     lambda n: b'\x01\x01\x03\x08\x00\xff\xff' + b'\xaa' * (8 + n % 4)),
    (D + 'record:DnsRecordDnskey', 'dsa-declared-t-max', lambda n: b'\x01\x01\x03\x03\xff' + b'\xaa' * (28 + n % 4)),
    (D + 'record:DnsRecordDnskey', 'huge-rsa', lambda n: b'\x01\x01\x03\x08\x03\x01\x00\x01' + b'\xaa' * (n * 8)),
    # --- DNS TXT policies
    (D + 'txt:DnsRecordTxtValueSpf', 'many-mechanisms', lambda n: b'v=spf1 ' + b'a ' * n + b'-all'),
    (D + 'txt:DnsRecordTxtValueSpf', 'many-includes', lambda n: b'v=spf1 ' + b'include:a.example ' * n + b'~all'),
    (D + 'txt:DnsRecordTxtValueSpf', 'many-ip4', lambda n: b'v=spf1 ' + b'ip4:10.0.0.0/8 ' * n + b'-all'),
    (D + 'txt:DnsRecordTxtValueSpf', 'space-run', lambda n: b'v=spf1' + b' ' * n + b'-all'),
    (D + 'txt:DnsRecordTxtValueSpf', 'one-huge-term', lambda n: b'v=spf1 include:' + b'a' * (n * 8)),
    (D + 'txt:DnsRecordTxtValueSpf', 'many-unknown-modifiers', lambda n: b'v=spf1 ' + b'x=y ' * n + b'-all'),
    (D + 'txt:DnsRecordTxtValueDmarc', 'many-unknown-tags', lambda n: b'v=DMARC1; p=none' + b'; x=y' * n),
    (D + 'txt:DnsRecordTxtValueDmarc', 'semicolon-run', lambda n: b'v=DMARC1; p=none' + b';' * n),
    (D + 'txt:DnsRecordTxtValueDmarc', 'huge-rua', lambda n: b'v=DMARC1; p=none; rua=mailto:' + b'a' * (n * 8) + b'@example.com'),
    (D + 'txt:DnsRecordTxtValueMtaSts', 'many-extensions', lambda n: b'v=STSv1; id=1' + b'; a=b' * n),
    (D + 'txt:DnsRecordTxtValueTlsRpt', 'many-extensions', lambda n: b'v=TLSRPTv1; rua=mailto:a@b.example' + b'; a=b' * n),
    # --- HTTP headers
    (H + 'HttpHeaderFields', 'many-unknown-headers', lambda n: b'X-a: b\r\n' * n + b'\r\n'),
    (H + 'HttpHeaderFields', 'many-known-headers', lambda n: b'Pragma: no-cache\r\n' * n + b'\r\n'),
    (H + 'HttpHeaderFields', 'many-sts-headers', lambda n: b'Strict-Transport-Security: max-age=1; includeSubDomains\r\n' * n + b'\r\n'),
    (H + 'HttpHeaderFields', 'colon-less-lines', lambda n: b'abcdef\r\n' * n + b'\r\n'),
    (H + 'HttpHeaderFields', 'one-huge-value', lambda n: b'X-a: ' + b'b' * (n * 8) + b'\r\n\r\n'),
    (H + 'HttpHeaderFields', 'no-crlf-at-all', lambda n: b'X-a: ' + b'b' * (n * 8)),
    (H + 'HttpHeaderFields', 'crlf-run', lambda n: b'\r\n' * n),
    (H + 'HttpHeaderFields', 'lone-cr-run', lambda n: b'X-a: b' + b'\r' * n + b'\r\n\r\n'),
    (H + 'HttpHeaderFieldValueSTS', 'many-unknown-directives', lambda n: b'max-age=1' + b'; a=b' * n),
    (H + 'HttpHeaderFieldValueSTS', 'semicolon-run', lambda n: b'max-age=1' + b';' * n),
    (H + 'HttpHeaderFieldValueSTS', 'space-run', lambda n: b'max-age=1;' + b' ' * n + b'preload'),
    (H + 'HttpHeaderFieldValueSTS', 'huge-digits', lambda n: b'max-age=' + b'9' * (n * 8)),
    (H + 'HttpHeaderFieldValueSTS', 'equals-less', lambda n: b'max-age=1' + b'; abc' * n),
    (H + 'HttpHeaderFieldValueCacheControlResponse', 'many-unknown-directives', lambda n: b'no-cache' + b', a=b' * n),
    (H + 'HttpHeaderFieldValueCacheControlResponse', 'comma-run', lambda n: b'no-cache' + b',' * n),
    (H + 'HttpHeaderFieldValueExpectCT', 'many-unknown-directives', lambda n: b'max-age=1' + b', a="b"' * n),
    (H + 'HttpHeaderFieldValuePublicKeyPinning', 'many-pins', lambda n: b'max-age=1' + b'; pin-sha256="YWJj"' * n),
    (H + 'HttpHeaderFieldValueSetCookie', 'many-attributes', lambda n: b'a=b' + b'; x=y' * n),
    (H + 'HttpHeaderFieldValueSetCookie', 'huge-value', lambda n: b'a=' + b'b' * (n * 8)),
    (H + 'HttpHeaderFieldValueContentType', 'many-parameters', lambda n: b'text/html' + b'; a=b' * n),
    (H + 'HttpHeaderFieldValueContentSecurityPolicy', 'many-sources', lambda n: b"default-src 'self' " + b'a.example ' * n),
    (H + 'HttpHeaderFieldValueContentSecurityPolicy', 'many-directives', lambda n: b"img-src 'self'; " * n + b"default-src 'none'"),
    (H + 'HttpHeaderFieldValueContentSecurityPolicy', 'many-hash-sources', lambda n: b'script-src ' + b"'sha256-YWJj' " * n),
    # lists of *distinct* items (a parser that looks every new name up among the ones it has already collected is
    # linear on n copies of one item and quadratic on n different ones)
    (H + 'HttpHeaderFieldValueSTS', 'many-distinct-directives', lambda n: b'max-age=1' + b''.join(b'; x%d=y' % i for i in range(n))),
    (H + 'HttpHeaderFieldValueExpectCT', 'many-distinct-directives', lambda n: b'max-age=1' + b''.join(b', x%d="y"' % i for i in range(n))),
    (H + 'HttpHeaderFieldValueCacheControlResponse', 'many-distinct-directives', lambda n: b'no-cache' + b''.join(b', x%d=y' % i for i in range(n))),
    (H + 'HttpHeaderFieldValueSetCookie', 'many-distinct-attributes', lambda n: b'a=b' + b''.join(b'; x%d=y' % i for i in range(n))),
    (H + 'HttpHeaderFieldValueContentType', 'many-distinct-parameters', lambda n: b'text/html' + b''.join(b'; x%d=y' % i for i in range(n))),
    (H + 'HttpHeaderFieldValuePublicKeyPinning', 'many-distinct-directives',
     lambda n: b'max-age=1; pin-sha256="YWJj"' + b''.join(b'; x%d=y' % i for i in range(n))),
    (H + 'HttpHeaderFields', 'many-distinct-unknown-headers', lambda n: b''.join(b'X-a%d: b\r\n' % i for i in range(n)) + b'\r\n'),
    (H + 'HttpHeaderFieldValueContentSecurityPolicy', 'many-distinct-sources', lambda n: b"default-src 'self'" + b''.join(b' a%d.example' % i for i in range(n))),
    (D + 'txt:DnsRecordTxtValueDmarc', 'many-distinct-unknown-tags', lambda n: b'v=DMARC1; p=none' + b''.join(b'; x%d=y' % i for i in range(n))),
    (D + 'txt:DnsRecordTxtValueMtaSts', 'many-distinct-extensions', lambda n: b'v=STSv1; id=1' + b''.join(b'; a%d=b' % i for i in range(n))),
    (D + 'txt:DnsRecordTxtValueTlsRpt', 'many-distinct-extensions', lambda n: b'v=TLSRPTv1; rua=mailto:a@example.com' + b''.join(b'; a%d=b' % i for i in range(n))),
    (D + 'txt:DnsRecordTxtValueSpf', 'many-distinct-unknown-modifiers', lambda n: b'v=spf1 ' + b''.join(b'x%d=y ' % i for i in range(n)) + b'-all'),
    (D + 'txt:DnsRecordTxtValueSpf', 'many-distinct-includes', lambda n: b'v=spf1 ' + b''.join(b'include:a%d.example ' % i for i in range(n)) + b'~all'),
    ('cryptoparser.common.field:NameValuePairListSemicolonSeparated', 'many-distinct-pairs', lambda n: b''.join(b'a%d=b; ' % i for i in range(n)) + b'c=d'),
    (S + 'subprotocol:SshKeyExchangeInit', 'many-distinct-unknown-names', lambda n: _kexinit({2: b','.join(b'x%d' % i for i in range(n))})),
    (S + 'key:SshCertExtensionVector', 'many-distinct-unknown-options',
     lambda n: (lambda body: u(len(body), 4) + body)(b''.join(_ssh_string(b'x%d@y' % i) + _ssh_string(b'') for i in range(n)))),
    # the same lists delimited only by the *other* member of the separator set (HTAB, bare LF, '/')
    (H + 'HttpHeaderFieldValueContentSecurityPolicy', 'many-sources-htab', lambda n: b"default-src\t'self'" + b'\ta.example' * n),
    (H + 'HttpHeaderFieldValueContentSecurityPolicy', 'many-hash-sources-htab', lambda n: b'script-src' + b"\t'sha256-YWJj'" * n),
    (H + 'HttpHeaderFieldValueContentSecurityPolicy', 'many-sandbox-tokens-htab', lambda n: b'sandbox' + b'\tallow-forms' * n),
    (H + 'HttpHeaderFieldValueContentSecurityPolicy', 'many-report-uris-htab', lambda n: b'report-uri' + b'\t/a' * n),
    (H + 'HttpHeaderFieldValueContentSecurityPolicy', 'many-directives-htab', lambda n: b"img-src\t'self';\t" * n + b"default-src\t'none'"),
    (H + 'HttpHeaderFields', 'many-headers-bare-lf', lambda n: b'X-a: b\n' * n + b'\r\n'),
    (H + 'HttpHeaderFields', 'many-known-headers-bare-lf', lambda n: b'Server: b\n' * n + b'\r\n'),
    (H + 'HttpHeaderFields', 'many-numeric-headers-bare-lf', lambda n: b'Age: 5\n' * n + b'\r\n'),
    (H + 'HttpHeaderFields', 'many-date-headers-bare-lf', lambda n: b'Date: Mon, 01 Jan 2001 00:00:00 GMT\n' * n + b'\r\n'),
    (H + 'HttpHeaderFields', 'many-sts-headers-bare-lf', lambda n: b'Strict-Transport-Security: max-age=1\n' * n + b'\r\n'),
    (H + 'HttpHeaderFields', 'many-known-headers-lf-only', lambda n: b'Server: nginx\n' * n + b'\n'),
    (H + 'HttpHeaderFields', 'many-numeric-headers-lone-cr', lambda n: b'Age: 5\r' * n + b'\r\n'),
    (H + 'HttpHeaderFieldValueSTS', 'many-unknown-directives-htab', lambda n: b'max-age=1' + b';\ta=b' * n),
    (H + 'HttpHeaderFieldValueCacheControlResponse', 'many-unknown-directives-htab', lambda n: b'no-cache' + b',\ta=b' * n),
    (H + 'HttpHeaderFieldValueSetCookie', 'many-attributes-htab', lambda n: b'a=b' + b';\tx=y' * n),
    (D + 'txt:DnsRecordTxtValueSpf', 'many-slashes', lambda n: b'v=spf1 a' + b'/1' * n + b' -all'),
    (D + 'txt:DnsRecordTxtValueSpf', 'many-mechanisms-one-slash-each', lambda n: b'v=spf1 ' + b'a/24 ' * n + b'-all'),
    (H + 'HttpHeaderFieldValueContentSecurityPolicy', 'space-run', lambda n: b'default-src' + b' ' * n + b"'self'"),
    (H + 'HttpHeaderFieldValueContentSecurityPolicy', 'semicolon-run', lambda n: b"default-src 'self'" + b';' * n),
    (H + 'HttpHeaderFieldValueContentSecurityPolicy', 'many-sandbox-tokens', lambda n: b'sandbox ' + b'allow-forms ' * n),
    (H + 'HttpHeaderFieldValueContentSecurityPolicy', 'many-report-uris', lambda n: b'report-uri ' + b'/a ' * n),
    (H + 'HttpHeaderFieldValueNetworkErrorLogging', 'many-unknown-members',
     lambda n: b'{"report_to": "a", "max_age": 1' + b''.join(b', "k%d": 1' % i for i in range(n)) + b'}'),
    (H + 'HttpHeaderFieldValueNetworkErrorLogging', 'nested-arrays', lambda n: b'{"report_to": "a", "max_age": 1, "x": ' + b'[' * min(n, 400) + b']' * min(n, 400) + b'}'),
    (H + 'HttpHeaderFieldValueDate', 'huge-garbage', lambda n: b'Mon, 01 Jan 2001 00:00:00 ' + b'G' * (n * 4)),
    (H + 'HttpHeaderFieldValueDate', 'many-numbers', lambda n: b'1 ' * n),
    ('cryptoparser.common.field:NameValuePairListSemicolonSeparated', 'many-pairs', lambda n: b'a=b; ' * n + b'c=d'),
    ('cryptoparser.common.field:NameValuePairListCommaSeparated', 'tab-run', lambda n: b'a=b,' + b'\t' * n + b'c=d'),
    ('cryptoparser.common.classes:LanguageTag', 'many-subtags', lambda n: b'en' + b'-ab' * n),
    # --- application protocols
    (T + 'mysql:MySQLHandshakeV10', 'huge-version', lambda n: b'\x0a' + b'5' * (n * 8) + b'\x00' + b'\x00' * 44),
    (T + 'mysql:MySQLHandshakeV10', 'no-terminator', lambda n: b'\x0a' + b'5' * (n * 8)),
    (T + 'mysql:MySQLRecord', 'big-packet', lambda n: u(_clamp(n * 8, 0xffffff), 3, 'little') + b'\x00' + b'\x00' * _clamp(n * 8, 0xffffff)),
    (T + 'openvpn:OpenVpnPacketControlV1', 'big-payload', lambda n: b'\x20' + b'\x00' * 8 + b'\x00' + b'\x00' * 4 + b'\x00' * (n * 8)),
    (T + 'openvpn:OpenVpnPacketAckV1', 'full-ack-array', lambda n: b'\x28' + b'\x00' * 8 + u(_clamp(n, 255), 1) + b'\x00\x00\x00\x01' * _clamp(n, 255) + b'\x00' * 8),
    (T + 'rdp:TPKT', 'big-message', lambda n: b'\x03\x00' + u(_clamp(n * 8 + 4, 65535), 2) + b'\x00' * (_clamp(n * 8 + 4, 65535) - 4)),
    (T + 'ldap:LDAPExtendedResponseStartTLS', 'long-diagnostic',
     lambda n: (lambda inner: b'\x30\x82' + u(len(inner), 2) + inner)(
         b'\x02\x01\x01' + (lambda body: b'\x78\x82' + u(len(body), 2) + body)(b'\x0a\x01\x00\x04\x00\x04\x82' + u(_clamp(n * 8, 60000), 2) + b'a' * _clamp(n * 8, 60000)))),
]


# ---------------------------------------------------------------------------------------------------

def _measure(cls, data, limit_factor=4):
    bound = STEPS_BASE + STEPS_PER_BYTE * len(data)
    meter = Meter()
    kind, lines, depth = meter.measure(cls.parse_immutable, data, limit=bound * limit_factor)
    return kind, lines, depth, bound


def _shape_table():
    return {(ref, name): builder for ref, name, builder in SHAPES}


def _generic_shape(seed, segment, n, mode):
    """Pumped input derived from a seed (data-only description so that replay files are self-contained)."""
    start, stop = segment
    if mode == 'pump':
        return seed[:start] + seed[start:stop] * n + seed[stop:]
    if mode == 'repeat':
        return seed * n
    if mode == 'fill00':
        return seed[:start] + b'\x00' * n
    if mode == 'fillff':
        return seed[:start] + b'\xff' * n
    if mode == 'fill-a':
        return seed[:start] + b'a' * n
    raise ValueError(mode)


def _build(case, n):
    if 'shape' in case:
        return _shape_table()[(case['cls'], case['shape'])](n)
    return _generic_shape(bytes.fromhex(case['seed']), case['segment'], n, case['mode'])


def check_case(case):
    cls = lib.resolve(case['cls'])
    name = cls.__name__
    findings = []
    if 'hex' in case:          # single measurement against the absolute bound
        data = bytes.fromhex(case['hex'])
        kind, lines, depth, bound = _measure(cls, data)
        check_case.reached = kind == 'ok' or lines * 4 >= len(data)
        if kind == 'limit' or lines > bound:
            findings.append(Finding('absolute-bound/%s:fuzz' % name, {'len': len(data), 'steps': lines, 'bound': bound, 'cut_off': kind == 'limit'}))
        if depth > MAX_DEPTH or kind == 'recursion':
            findings.append(Finding('depth/%s:fuzz' % name, {'len': len(data), 'depth': depth}))
        return findings
    if case.get('kind') == 'declared':
        return _check_declared(cls, name, case)
    label = case.get('shape') or case['mode']
    base = case['n']
    results = []
    for factor in (1, 2, 4, 8):
        data = _build(case, base * factor)
        kind, lines, depth, bound = _measure(cls, data)
        results.append((len(data), kind, lines, depth))
        if kind == 'limit' or lines > bound:
            findings.append(Finding('absolute-bound/%s:%s' % (name, label), {
                'n': base * factor, 'len': len(data), 'steps': lines, 'bound': bound, 'cut_off': kind == 'limit'}))
            break
        if depth > MAX_DEPTH or kind == 'recursion':
            findings.append(Finding('depth/%s:%s' % (name, label), {'n': base * factor, 'depth': depth, 'outcome': kind}))
            break
    check_case.results = results
    check_case.reached = any(kind == 'ok' or lines * 4 >= size for size, kind, lines, _ in results)
    if not findings and len(results) == 4 and len({r[1] for r in results}) == 1:
        # all four measurements ended the same way (same regime): the marginal cost per added byte must not grow
        sizes = [r[0] for r in results]
        steps = [r[2] for r in results]
        depths = [r[3] for r in results]
        if sizes[0] < sizes[1] < sizes[2] < sizes[3]:
            first = (steps[1] - steps[0]) / float(sizes[1] - sizes[0])
            middle = (steps[2] - steps[1]) / float(sizes[2] - sizes[1])
            last = (steps[3] - steps[2]) / float(sizes[3] - sizes[2])
            # superlinear work makes the marginal cost grow at *every* doubling (x2 for quadratic work); a parser
            # that gives up early on the small sizes and only starts to work at the largest one shows a single jump
            # (0, 0, L) - that is a change of regime with the same outcome, not growth
            grows_throughout = middle > 1.25 * max(first, 0.0) + 15 and last > 1.25 * max(middle, 0.0) + 15
            if last > 1.5 * max(first, 0.0) + 30 and grows_throughout:
                findings.append(Finding('superlinear/%s:%s' % (name, label), {
                    'sizes': sizes, 'steps': steps,
                    'marginal_steps_per_byte': [round(first, 1), round(middle, 1), round(last, 1)]}))
        if depths[0] < depths[1] < depths[2] < depths[3] and depths[3] - depths[0] >= 6:
            findings.append(Finding('depth-grows/%s:%s' % (name, label), {'sizes': sizes, 'depths': depths}))
    return findings


check_case.results = []
check_case.reached = False

DECLARED_WIDTHS = (2, 3, 4, 8)
DECLARED_SLACK = 2000


def declared_inputs(seed, pos, width, keep):
    """The seed with the numeric field at `pos` raised to a quarter of / the whole maximum of its width, followed by
    the rest of the seed (keep) or by nothing (the declared amount then has no data at all behind it)."""
    tail = seed[pos + width:] if keep else b''
    return (seed[:pos] + b'\x3f' + b'\xff' * (width - 1) + tail, seed[:pos] + b'\xff' * width + tail)


def _check_declared(cls, name, case):
    """Declared counts and lengths never drive work: two inputs of the same size that differ only in how much a
    length / count field announces (both far more than is there) must cost about the same."""
    seed = bytes.fromhex(case['seed'])
    small, large = declared_inputs(seed, case['pos'], case['width'], case['keep'])
    kind_small, steps_small, _depth, bound = _measure(cls, small)
    kind_large, steps_large, _depth, bound = _measure(cls, large)
    check_case.results = [(len(small), kind_small, steps_small, 0), (len(large), kind_large, steps_large, 0)]
    check_case.reached = True
    findings = []
    if kind_large == 'limit' or steps_large > bound:
        findings.append(Finding('absolute-bound/%s:declared' % name, {
            'len': len(large), 'steps': steps_large, 'bound': bound, 'cut_off': kind_large == 'limit', 'pos': case['pos']}))
    elif kind_small == kind_large and steps_large > 2 * steps_small + DECLARED_SLACK:
        findings.append(Finding('declared-amount-drives-work/%s' % name, {
            'pos': case['pos'], 'width': case['width'], 'keep': case['keep'], 'len': len(large),
            'steps_quarter_max': steps_small, 'steps_max': steps_large, 'outcome': kind_large}))
    return findings


def declared_candidates(cls, seed):
    """Offsets at which the parser reads a 2/3/4/8-byte quantity: cutting the seed there is answered with
    NotEnoughData(bytes_needed = width), cutting one byte later with width - 1, and cutting one byte earlier is not
    answered with width + 1 (that would be the tail of a longer field, e.g. the last bytes of a string)."""
    errors = lib.errors()
    needed = []
    for pos in range(len(seed)):
        outcome = lib.call(cls.parse_immutable, seed[:pos])
        missing = outcome.exc.bytes_needed if not outcome.ok and isinstance(outcome.exc, errors.NotEnoughData) else None
        needed.append(missing)
    return [(pos, width) for pos, width in enumerate(needed)
            if width in DECLARED_WIDTHS and pos + width <= len(seed) and (pos == 0 or needed[pos - 1] != width + 1)
            and needed[pos + 1] == width - 1]


def _declared_job(arg):
    index, shards, seeds_per_class, budget_s = arg
    started = time.time()
    stats = Stats()
    for cls in lib.concrete_classes()[index::shards]:
        ref = lib.ref_of(cls)
        base = [b for b in list(seeds.seeds_for(cls)) + registry.composed_examples(cls) if 4 <= len(b) <= 2048]
        base = [b for b in base if lib.call(cls.parse_immutable, b).ok]
        if len(base) > seeds_per_class:
            # the longest ones carry the most fields; keep the shortest too
            base = sorted(base, key=lambda b: (len(b), b))
            if seeds_per_class > 1:
                # the shortest, the longest (most fields) and evenly spaced ones between them (other variants of the
                # class: another key type, another length form)
                step = (len(base) - 1) / float(seeds_per_class - 1)
                base = [base[int(round(k * step))] for k in range(seeds_per_class)]
            else:
                base = base[-1:]
        seen = set()
        for seed in base:
            for pos, width in declared_candidates(cls, seed):
                # one probe per distinct (prefix structure, width): the same field of another seed adds nothing
                signature = (pos, width, seed[:pos][-8:])
                if signature in seen:
                    continue
                seen.add(signature)
                for keep in (False, True):
                    if time.time() - started > budget_s:
                        stats.budget_reached = True
                        return stats
                    _run_case(stats, {'kind': 'declared', 'cls': ref, 'seed': seed.hex(), 'pos': pos, 'width': width,
                                      'keep': keep}, 'declared:' + ('keep' if keep else 'cut'))
    return stats


def _run_case(stats, case, label):
    stats.evaluations += 1
    stats.labels[label] += 1
    check_case.reached = False
    with targets.watchdog(120):
        findings = check_case(case)
    name = case['cls'].split(':')[-1]
    if check_case.reached:
        stats.nontriv((case['cls'], case.get('shape') or case.get('mode') or case.get('hex'), case.get('n'), case.get('seed', '')[:40], str(case.get('segment')), case.get('pos'), case.get('width'), case.get('keep')))
        stats.classes[name] += 1
        if 'shape' in case:
            stats.sample('shape', {'cls': name, 'shape': case['shape'], 'n': case['n'],
                                   'sizes_steps_depth': [(r[0], r[2], r[3]) for r in check_case.results]})
    for finding in findings:
        stats.finding(finding, case)


def _shape_job(arg):
    index, shards, base_n = arg
    stats = Stats()
    for ref, name, _builder in SHAPES[index::shards]:
        _run_case(stats, {'cls': ref, 'shape': name, 'n': base_n}, 'hand-written-shape')
    return stats


def _generic_job(arg):
    index, shards, base_n, per_class, fuzz_per_class, seed_value, budget_s = arg
    started = time.time()
    stats = Stats()
    rng = random.Random(seed_value)
    donors = seeds.all_seeds()
    for cls in lib.concrete_classes()[index::shards]:
        ref = lib.ref_of(cls)
        base = list(seeds.seeds_for(cls)) + registry.composed_examples(cls)
        base = [b for b in base if 0 < len(b) <= 600]
        if not base:
            continue
        for number in range(per_class):
            if time.time() - started > budget_s:
                stats.budget_reached = True
                return stats
            seed = base[number % len(base)]
            start = rng.randrange(len(seed))
            stop = min(len(seed), start + rng.choice((1, 1, 2, 3, 4, 8, 16)))
            mode = ('pump', 'pump', 'pump', 'repeat', 'fill00', 'fillff', 'fill-a')[number % 7]
            case = {'cls': ref, 'seed': seed.hex(), 'segment': [start, stop], 'mode': mode, 'n': base_n}
            _run_case(stats, case, 'generic:' + mode)
        for number in range(fuzz_per_class):
            if time.time() - started > budget_s:
                stats.budget_reached = True
                return stats
            seed = base[number % len(base)]
            _name, data = mutate.mutate(rng, seed, donors)
            _run_case(stats, {'cls': ref, 'hex': data.hex()}, 'fuzz')
    return stats


def _job(arg):
    if arg[0] == 'declared':
        return _declared_job(arg[1:])
    return _shape_job(arg[1:]) if arg[0] == 'shape' else _generic_job(arg[1:])


def run(ctx):
    from vf.gen import registry as _registry  # pylint: disable=import-outside-toplevel
    _registry.warm()
    base_n = 128 if ctx.quick else 1024
    shards = 48
    per_class = 6 if ctx.quick else 60
    fuzz_per_class = 12 if ctx.quick else 600
    budget_s = 100 if ctx.quick else 1500
    jobs = [('shape', index, 24, base_n) for index in range(24)]
    jobs += [('generic', index, shards, base_n // 2, per_class, fuzz_per_class, ctx.derive_seed('generic', index), budget_s)
             for index in range(shards)]
    jobs += [('declared', index, shards, 5 if ctx.quick else 40, budget_s) for index in range(shards)]
    stats = pool.run_shards(_job, jobs)
    stats.extra['hand_written_shapes'] = len(SHAPES)
    stats.extra['bound'] = 'steps <= %d + %d * len; marginal steps/byte(4n..8n) <= 1.5 * marginal(n..2n) + 30; depth <= %d' % (STEPS_BASE, STEPS_PER_BYTE, MAX_DEPTH)
    return stats
