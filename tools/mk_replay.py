#!/usr/bin/env python3
"""Developer tool: write a replay file by hand:  mk_replay.py <ID> <key> '<case json>' [note]"""
import json, os, re, sys
prop, key, case = sys.argv[1], sys.argv[2], json.loads(sys.argv[3])
note = sys.argv[4] if len(sys.argv) > 4 else ''
d = os.path.join(os.path.dirname(os.path.dirname(os.path.abspath(__file__))), 'replays', prop)
os.makedirs(d, exist_ok=True)
path = os.path.join(d, re.sub(r'[^A-Za-z0-9_.=-]+', '_', key)[:150] + '.json')
json.dump({'property': prop, 'key': key, 'case': case, 'detail': {}, 'seed': 0, 'tier': 'quick', 'found_by': 'hand-written from a shrunk failure', 'note': note}, open(path, 'w'), indent=1, sort_keys=True)
print(path)
