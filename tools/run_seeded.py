#!/usr/bin/env python3
"""Developer tool: evaluate the checks against one seeded change.

    run_seeded.py <dir with patch.diff and demo.py> [check ids ...]     (default: the property's own check)

Makes a scratch git worktree of /repo outside /repo and /verif, verifies the demonstration (exit 0 on the clean tree,
exit 1 with the change), applies the patch, runs the repository's own suite (must stay at baseline), runs the checks
with VERIF_REPO pointing at the worktree and VERIF_SCRATCH so that nothing under /verif is written, removes the
worktree.  Prints one JSON line."""
import json, os, shutil, subprocess, sys, tempfile, time

HERE = os.path.dirname(os.path.dirname(os.path.abspath(__file__)))
PY = '/venv/bin/python'


def sh(cmd, cwd=None, env=None, timeout=3600):
    proc = subprocess.run(cmd, cwd=cwd, env=env, stdout=subprocess.PIPE, stderr=subprocess.STDOUT, timeout=timeout)
    return proc.returncode, proc.stdout.decode(errors='replace')


def main():
    seeded = os.path.abspath(sys.argv[1])
    checks = sys.argv[2:]
    meta_path = os.path.join(seeded, 'meta.json')
    meta = json.load(open(meta_path)) if os.path.exists(meta_path) else {}
    if not checks:
        checks = [meta.get('property') or os.path.basename(os.path.dirname(seeded))]
    work = tempfile.mkdtemp(prefix='vfseed_', dir='/tmp')
    tree = os.path.join(work, 'tree')
    scratch = os.path.join(work, 'scratch')
    result = {'seeded': seeded, 'checks': {}}
    try:
        code, out = sh(['git', '-C', '/repo', 'worktree', 'add', '--detach', '-q', tree, 'HEAD'])
        assert code == 0, out
        env = dict(os.environ, PYTHONPATH=tree, PYTHONDONTWRITEBYTECODE='1')
        demo = os.path.join(seeded, 'demo.py')
        result['demo_clean'] = sh([PY, demo], cwd=work, env=env, timeout=600)[0]
        code, out = sh(['git', '-C', tree, 'apply', os.path.join(seeded, 'patch.diff')])
        result['patch_applies'] = code == 0
        if code != 0:
            result['apply_error'] = out[-400:]
            return result
        result['demo_changed'] = sh([PY, demo], cwd=work, env=env, timeout=600)[0]
        code, out = sh([PY, '-m', 'pytest', '-q', '-p', 'no:cacheprovider', '--timeout=900'], cwd=tree, env=env)
        result['suite'] = out.strip().splitlines()[-1] if out.strip() else ''
        for check in checks:
            started = time.time()
            cenv = dict(os.environ, VERIF_REPO=tree, VERIF_SCRATCH=scratch, PYTHONDONTWRITEBYTECODE='1')
            code, out = sh([os.path.join(HERE, 'check'), check, '--tier', os.environ.get('SEED_TIER', 'quick')], cwd=HERE, env=cenv)
            keys = [line.split('key=')[1].split(' ')[0] for line in out.splitlines() if line.startswith('finding key=')]
            result['checks'][check] = {'exit': code, 'new_keys': keys[:12], 'wall_s': round(time.time() - started, 1)}
    finally:
        sh(['git', '-C', '/repo', 'worktree', 'remove', '--force', tree])
        shutil.rmtree(work, ignore_errors=True)
    return result


if __name__ == '__main__':
    print(json.dumps(main()))
