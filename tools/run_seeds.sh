#!/bin/sh
# Developer tool: run every registered quick check at several VERIF_SEED values (evidence goes to a scratch dir);
# prints one line per (check, seed) that did not exit 0 or printed a VIOLATION, and a summary.
#   tools/run_seeds.sh "2 3 4" [tier]
cd "$(dirname "$0")/.."
scratch=$(mktemp -d /tmp/vfseeds.XXXXXX)
bad=0
for seed in ${1:-2 3 4}; do
  for id in $(python3 -c "import json; print(' '.join(c['property_id'] for c in json.load(open('MANIFEST.json'))['checks']))"); do
    out=$(VERIF_SEED=$seed VERIF_SCRATCH=$scratch ./check "$id" --tier "${2:-quick}" 2>&1)
    code=$?
    if [ $code -ne 0 ] || echo "$out" | grep -q '^VIOLATION'; then
      bad=$((bad+1)); echo "$id seed=$seed exit=$code"; echo "$out" | grep -v '^KNOWN-FINDING' | tail -12
      mkdir -p /tmp/vfseeds_keep/$id.$seed; cp -r $scratch/replays/$id /tmp/vfseeds_keep/$id.$seed/ 2>/dev/null
    fi
  done
done
rm -rf "$scratch"
echo "run_seeds: $bad non-quiet runs"
