#!/usr/bin/env python3
"""Developer tool: validate MANIFEST.json and every evidence file against the schemas (run with python3-vt)."""
import glob, json, sys
import jsonschema
ok = True
jsonschema.validate(json.load(open('MANIFEST.json')), json.load(open('/root/.vp/MANIFEST.schema.json')))
schema = json.load(open('/root/.vp/EVIDENCE.schema.json'))
for path in sorted(glob.glob('evidence/*.json')):
    try:
        jsonschema.validate(json.load(open(path)), schema)
    except Exception as e:
        ok = False
        print('INVALID', path, str(e)[:300])
print('valid' if ok else 'INVALID')
sys.exit(0 if ok else 1)
