#!/bin/sh
# Developer tool: run every registered thorough command once (long), summarise exit codes and new finding keys.
#   tools/run_thorough.sh [ids...]      e.g. through `vp run --timeout 10h -- sh tools/run_thorough.sh`
cd "$(dirname "$0")/.."
sh tools/setup.sh >/dev/null 2>&1
ids="$*"
[ -n "$ids" ] || ids=$(python3 -c "import json; print(' '.join(c['property_id'] for c in json.load(open('MANIFEST.json'))['checks']))")
for id in $ids; do
    start=$(date +%s)
    out=$(./check "$id" --tier thorough 2>&1)
    code=$?
    echo "== $id exit=$code $(( $(date +%s) - start ))s"
    echo "$out" | grep -v '^KNOWN-FINDING' | tail -8
done
echo "run_thorough: done"
