#!/usr/bin/env python3
"""Developer tool: regenerate the generated tables of DESIGN.md (between <!-- X-BEGIN --> / <!-- X-END --> markers):
FINDINGS from known_findings.json, SEEDED from seeded/*/meta.json."""
import glob, json, os, re
HERE = os.path.dirname(os.path.dirname(os.path.abspath(__file__)))


def findings_table():
    data = json.load(open(os.path.join(HERE, 'known_findings.json')))['findings']
    out = []
    for status, title in (('fixed', 'Repaired (one `fix:` commit each; a `fixed` entry suppresses nothing, its replay stays in the regression tier)'),
                          ('open', 'Recorded as known findings (not repaired: the repository suite pins the behaviour, the defect lies in a '
                                   'dependency, or no small safe patch exists)')):
        out.append('**%s**\n' % title)
        out.append('| prop | key | %s | what failed |' % ('commit' if status == 'fixed' else 'replay'))
        out.append('|---|---|---|---|')
        for e in sorted((e for e in data if e['status'] == status), key=lambda e: (e['property'], e['key'])):
            what = re.sub(r'^fixed: property=\S+ \S+ ', '', e['what']).replace('|', '\\|').replace('\n', ' ')
            third = e.get('commit', '') if status == 'fixed' else os.path.basename(e.get('replay', '') or '')
            out.append('| %s | `%s` | %s | %s |' % (e['property'], e['key'].replace('|', '\\|'), third, what[:400]))
        out.append('')
    return '\n'.join(out)


def seeded_table():
    rows = []
    for path in sorted(glob.glob(os.path.join(HERE, 'seeded', '*', 'meta.json'))):
        m = json.load(open(path))
        caught = ', '.join('%s (%s)' % (c, ', '.join(k[:2])) for c, k in sorted(m.get('caught_by', {}).items())) or '-'
        rows.append('| %s | %s | %s | %s | %s | %s |' % (
            os.path.basename(os.path.dirname(path)), m['property'], m.get('site', ''), m.get('needs', '').replace('|', '/')[:220],
            caught[:300], m.get('missed_by_own_check_before', '') or ''))
    head = ['| id | breaks | site | needs, in order to manifest | caught by (first finding keys) | note |', '|---|---|---|---|---|---|']
    return '\n'.join(head + rows) + '\n'


def splice(text, name, body):
    begin, end = '<!-- %s-BEGIN -->' % name, '<!-- %s-END -->' % name
    if begin not in text:
        return text
    i = text.index(begin) + len(begin)
    j = text.index(end)
    return text[:i] + '\n' + body + text[j:]


def main():
    path = os.path.join(HERE, 'DESIGN.md')
    text = open(path).read()
    text = splice(text, 'FINDINGS', findings_table())
    text = splice(text, 'SEEDED', seeded_table())
    open(path, 'w').write(text)
    print('DESIGN.md tables regenerated')


if __name__ == '__main__':
    main()
