# -*- coding: utf-8 -*-
"""pytest plugin (developer tool): records every (class, input) pair handed to the three parse entry points while
the repository's own test-suite runs, with the outcome.  Used once to build vf/gen/corpus.json (seed corpus)."""
import json
import os

_RECORDS = {}


def _wrap(base, name):
    original = getattr(base, name).__func__

    def wrapper(cls, parsable):
        data = None
        try:
            data = bytes(parsable)
        except Exception:  # pylint: disable=broad-except
            pass
        try:
            result = original(cls, parsable)
        except BaseException as e:
            if data is not None:
                _RECORDS.setdefault((cls.__module__, cls.__qualname__, data.hex()), type(e).__name__)
            raise
        if data is not None:
            _RECORDS[(cls.__module__, cls.__qualname__, data.hex())] = 'ok'
        return result

    setattr(base, name, classmethod(wrapper))


def pytest_configure(config):
    from cryptoparser.common.parse import ParsableBaseNoABC
    for name in ('parse_exact_size', 'parse_immutable', 'parse_mutable'):
        _wrap(ParsableBaseNoABC, name)


def pytest_unconfigure(config):
    out = os.environ.get('HARVEST_OUT')
    if out:
        rows = sorted([list(k) + [v] for k, v in _RECORDS.items()])
        with open(out, 'w') as handle:
            json.dump(rows, handle)
