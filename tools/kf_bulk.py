#!/usr/bin/env python3
"""Developer tool: register every replay file of a property that is not yet listed in known_findings.json as an
OPEN finding (after the failure has been confirmed to be a genuine defect).  kf_bulk.py <ID> [key-prefix]"""
import fnmatch, glob, json, os, sys
here = os.path.dirname(os.path.dirname(os.path.abspath(__file__)))
prop = sys.argv[1]
prefix = sys.argv[2] if len(sys.argv) > 2 else ''
path = os.path.join(here, 'known_findings.json')
data = json.load(open(path))
have = {(e['property'], e['key']) for e in data['findings']}
added = 0
for replay in sorted(glob.glob(os.path.join(here, 'replays', prop, '*.json'))):
    r = json.load(open(replay))
    key = r['key']
    if any(p == prop and (k == key or fnmatch.fnmatchcase(key, k)) for p, k in have) or not key.startswith(prefix):
        continue
    d = r.get('detail') or {}
    what = '%s: %s' % (key, json.dumps(d, sort_keys=True)[:260])
    data['findings'].append({'property': prop, 'key': key, 'status': 'open', 'what': what,
                             'replay': os.path.relpath(replay, here)})
    added += 1
data['findings'].sort(key=lambda e: (e['property'], e['status'], e['key']))
json.dump(data, open(path, 'w'), indent=1)
open(path, 'a').write('\n')
print('added', added)
