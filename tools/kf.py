#!/usr/bin/env python3
"""Developer tool (never used at run time): add/replace an entry of known_findings.json.
   kf.py <prop> <key> open|fixed <commit|-> <what> [replay]"""
import json, os, sys
path = os.path.join(os.path.dirname(os.path.dirname(os.path.abspath(__file__))), 'known_findings.json')
data = json.load(open(path))
prop, key, status, commit, what = sys.argv[1:6]
replay = sys.argv[6] if len(sys.argv) > 6 else None
if status == 'fixed' and not what.startswith('fixed:'):
    what = 'fixed: property=%s %s %s' % (prop, commit, what)
entry = {'property': prop, 'key': key, 'status': status, 'what': what}
if commit != '-':
    entry['commit'] = commit
if replay:
    entry['replay'] = replay
data['findings'] = [e for e in data['findings'] if not (e['property'] == prop and e['key'] == key)] + [entry]
data['findings'].sort(key=lambda e: (e['property'], e['status'], e['key']))
json.dump(data, open(path, 'w'), indent=1)
open(path, 'a').write('\n')
print('known_findings:', len(data['findings']), 'entries')
