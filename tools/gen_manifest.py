#!/usr/bin/env python3
# -*- coding: utf-8 -*-
"""Regenerates /verif/MANIFEST.json from the table below (developer tool; run after adding a check)."""
import json
import os

HERE = os.path.dirname(os.path.dirname(os.path.abspath(__file__)))

CHECKS = {
    'C17': dict(
        technique='exhaustive enumeration of the finite version set (all ordered pairs and triples) against the '
                  'order axioms and the prescribed chain, plus Hypothesis-generated permutations for '
                  'sorted/min/max/set',
        text='Every ordered pair and triple of every defined TLS version is evaluated against trichotomy, '
             'transitivity, hash/eq consistency and the chain prescribed by the property; this is a complete '
             'enumeration of the quantifier domain, so for the member table as installed the verdict is exact. '
             ' For every member every observer (str, repr, markdown, json, compose, properties, comparisons, copy)'
             ' is applied before hash, equality and set membership are re-checked against a fresh object.',
        note='Trusts Python comparison dispatch and the TlsVersion table of cryptodatahub as installed in /venv.',
        design='3 (C17)'),
    'C11': dict(
        technique='exhaustive enumeration of 16-bit (thorough: 24-bit) integers per width x byte order plus seeded '
                  'boundary/random generation, against Python big-integer arithmetic, an RFC 4251 mpint encoder '
                  'and epoch arithmetic; the machine TZ is varied in-process (metamorphic: TZ must not matter)',
        text='Integers: complete enumeration of 0..65535 for every width/byte order (all 2^24 three-byte values '
             'in the thorough tier) and generated out-of-range values; flags: all subsets of the small flag enums, '
             'all 8/16-bit raw words; mpints: generated integers up to 4096 bits around byte and word boundaries, '
             'both signs for SSH; timestamps: generated instants dense around UTC-offset transitions under 24 '
             '(thorough: ~600) TZ settings. Exact on the enumerated parts, sampling elsewhere.',
        note='Oracle is int.to_bytes/from_bytes, a 6-line RFC 4251 encoder and epoch arithmetic; trusts '
             'time.tzset() and the system tzdata to switch the machine zone in-process.',
        design='3 (C11)'),
    'C02': dict(
        technique='mutation-based fuzzing with a semantic oracle: exhaustive truncation + seeded structure-aware '
                  'mutants and splices of valid encodings per class, unstructured bytes; oracle = exception type '
                  'whitelist; findings bucketed by (exception type, innermost cryptoparser frame)',
        text='Every concrete parsable class and the subprotocol/parse_key entry points (~370 targets) are fed every '
             'proper prefix of their seed encodings and ~1500 (thorough: 40000) seeded mutants each through '
             'parse_immutable/parse_exact_size/parse_mutable; any exception other than the four documented parse '
             'errors is a finding. Sampling: absence of leaks is not established, rare leaks in third-party '
             'parsers (dateutil, asn1crypto) have a long tail. '
             ' Added: inflated variants of the accepted seeds (huge numbers, long labels, calendar edges, deep'
             ' nesting), extreme values in every fixed-width numeric field the parser reads, reference-encoded'
             ' seeds independent of compose(); the thorough tier adds 32 coverage-guided atheris campaigns with the'
             ' same oracle inside the target.',
        note='Seed corpus = inputs of the repository unit tests (committed) plus encodings composed from generated '
             'objects; leak identity = exception type + innermost cryptoparser frame.',
        design='3 (C02)'),
    'C03': dict(
        technique='metamorphic fuzzing: seeds, seed+suffix, mutants and concatenations per class; relations between '
                  'parse_immutable / parse_mutable / parse_exact_size, re-parse of buf[:n] and buf[:n]+suffix for '
                  'framing units, and an independent frame-header reader as oracle for n',
        text='For every concrete class ~400 (thorough 8000) buffers derived from valid encodings are parsed through the '
             'three entry points and the outcomes are related (0<=n<=len, in-place variant removes exactly n bytes '
             'and leaves the buffer untouched on failure, exact-size succeeds iff n==len); the ~25 framing-unit '
             'classes get 6x the budget plus the self-delimiting and declared-length clauses. Sampling. '
             ' Seeds include BER long-form / indefinite-length LDAP frames, three-byte-header SSL 2.0 records and'
             ' reference-encoded messages; the thorough tier adds atheris campaigns with the length clauses as'
             ' oracle.',
        note='declared() readers are written from the specifications (DESIGN appendix B); structural equality '
             'compares asn1crypto values by DER.',
        design='3 (C03)'),
    'C05': dict(
        technique='mutation-based fuzzing with a canonical-form oracle: accepted seeds, grammar variants and seeded '
                  'mutants per class; parse -> compose -> parse_exact_size -> structural equality -> compose again '
                  '(idempotence); deviations bucketed by root-cause family',
        text='~400 (thorough 10000) mutants per concrete class plus all seeds; only accepted inputs are cases and the '
             'non-trivial ones are those whose canonical re-serialisation differs from the input. For byte-mutated '
             'texts of the HTTP/TXT families the findings are folded into one family per clause (lenient third-party '
             'building blocks), precise keys are kept for seeds, grammar variants and all binary classes. Sampling. '
             ' Seeds include 48 grammar-generated texts per text class and reference-encoded binary messages'
             ' (independent of compose()); the thorough tier adds atheris campaigns with the canonical-form oracle.',
        note='Equality as in C01; header-field classes are re-parsed with the CRLF item terminator appended.',
        design='3 (C05)'),
    'C01': dict(
        technique='Hypothesis spec-first generation of constructor arguments per class (166 classes of the binary '
                  'families) + objects parsed from the unit-test corpus (all classes); round-trip oracle '
                  'compose -> parse_exact_size/parse_immutable -> structural equality, recursive over nested '
                  'parsable values and through variant wrappers',
        text='~120 (thorough 2500) generated objects per class with a spec strategy, built from the wire grammar '
             '(every enum member, unknown/GREASE codes where a fallback exists, vector sizes at both bounds, optional '
             'arguments, boundary integers), plus every accepted corpus input of every concrete class; each is '
             'composed, re-parsed and compared field by field, nested values included. Sampling; the text families '
             '(HTTP headers, TXT policies) are built through their constructors from the grammar models of C18 and '
             'also reached through parsed corpus objects; parsed objects additionally go back through every '
             'dispatcher that lists their class. '
             ' Objects reached by editing in place (fields of items inside vectors, a constructor field replaced by'
             " another instance's value after a first compose) are judged against an equal object rebuilt through"
             ' the constructors.',
        note='Structural equality defined in vf/core/lib.py; constructor rejections and wire-cannot-carry cases are '
             'counted per class in the evidence.',
        design='3 (C01)'),
    'C12': dict(
        technique='model-based stateful testing with Hypothesis: generated operation lists over the MutableSequence '
                  'interface are interpreted against the real vector and a plain-list model; invariants after every '
                  'step (items == model, body size within bounds computed independently, prefix == body length, '
                  'edited vector == freshly built vector, compose/parse round trip)',
        text='40 vector classes x 150 (thorough 3000) histories of up to 30 (80) operations including slice and bulk '
             'edits, negative/out-of-range positions and histories that touch both size bounds; refused edits must '
             'leave the vector unchanged. Sampling of histories; ceilings of 2^24-1 and 2^32-1 are not touched. '
             ' Initial vectors are handed to the constructor as list / tuple / generator / iterator / map; a'
             ' history may end with an edit made inside an item (its own field or inner vector), after which prefix'
             ' and bytes are compared with a freshly built vector.',
        note='Bounds are those declared by get_param(); item sizes are recomputed from the items without the '
             'vector\'s own bookkeeping.',
        design='3 (C12)'),
    'C13': dict(
        technique='history-based property testing: generated observer-call sequences with a structural state dump as '
                  'invariant (Hypothesis), buffer-mutation-after-parse and mutate-one-of-two-parses aliasing checks over '
                  'all accepted seeds, and generated construct/mutate-in-place histories for classes with defaults',
        text='Observer purity for ~166 classes x 60 (thorough 1500) call sequences plus every parsed corpus object and an '
             'enumerated family of client hellos at the cipher-suite ceiling (the only place where compose can fail '
             'half way); aliasing for every accepted seed of every concrete class through the three entry points; '
             'default sharing for every attrs class with defaults. Sampling of histories. '
             ' A third of the observer histories start from an object edited in place; every history ends with'
             ' renders under an installed text-encoder hook; the classes of the object must not gain attributes'
             ' during a history.',
        note='State is the structural dump of vf.core.lib.dump (private fields and the recorded vector size included); '
             'in-place mutation goes through the public container interfaces only.',
        design='3 (C13)'),
    'C14': dict(
        technique='property-based testing with a well-formedness oracle (strict json.loads, Markdown is text) and '
                  'metamorphic determinism relations: deepcopy, parse-compose round trip, sets rebuilt in reversed '
                  'insertion order, reversed serialisation order in one process, child processes under '
                  'PYTHONHASHSEED 0..3 running the same seeded cases',
        text='~60 (thorough 1500) generated objects per class with a spec strategy, every accepted corpus input and '
             '40 (1000) accepted mutants per concrete class are serialised to JSON and Markdown; any exception, '
             'non-standard JSON or non-text Markdown is a finding; equal objects must give identical output under '
             'the five relations. Sampling. '
             ' Cross-process relations: the same work under four hash seeds, and one family of objects serialised'
             ' in four orders in fresh interpreters; the same object is serialised again after compose() and under'
             ' an installed / removed text-encoder hook. Text objects are also built through their constructors'
             ' from the grammar models of C18; the round-trip relation covers objects equal under ==.',
        note='Failures are keyed by the innermost cryptoparser/cryptodatahub frame; mutated X.509 certificates are '
             'outside the generated domain (lazy third-party parsing).',
        design='3 (C14)'),
    'C04': dict(
        technique='model-based testing of two reader models (exact reader, eager reader with generated delivery '
                  'schedules as data) driven against the real parsers, plus exhaustive enumeration of every proper '
                  'prefix of every generated record <= 4 KiB; oracle = bounds on bytes_needed and equality of the '
                  'reassembled record sequence',
        text='~2800 (thorough ~56k) generated records of every record layer (TLS, SSL 2.0 incl. 3-byte headers, SSH, '
             'MySQL, TPKT, OpenVPN-TCP, LDAP, PostgreSQL) with all their prefixes (~416k / 9.2M) and ~3000 (61k) '
             'delivery schedules with cuts forced inside headers and length fields, including handshake messages '
             'fragmented over TLS records. Exact for the enumerated prefixes, sampling for schedules. '
             'A pool of reference-encoded and lower-bound handshake messages (independent of compose()) is swept '
             'deterministically and drawn into the streams.',
        note='The SSH identification string is line-delimited: for it "a proper prefix is never accepted" and "a '
             'complete identification string is never answered with NotEnoughData" are asserted.',
        design='3 (C04)'),
    'C06': dict(
        technique='differential testing against an independent reference encoder and strict decoder written from the '
                  'RFC presentation language (vf/ref/tls.py): Hypothesis-generated plain-data models + deterministic '
                  'enumeration of every table member in every container + boundary cases at vector floors/ceilings',
        text='~40k (thorough ~740k) models of records, alerts, CCS, hellos, certificate messages, certificate requests, '
             'SSL 2.0 messages and every client/server extension layout; compose == reference bytes and '
             'parse(reference bytes) recovers the model through the class, the variant parsers, the extension vectors '
             'and TlsRecord + subprotocol parser; SCSV markers at arbitrary wire positions. '
             ' compose() is called twice per object, and models with a certificate / key share / distinguished name'
             ' / responder id are also checked after an in-place edit of the built object against the reference'
             ' encoding of the edited model.',
        note='The reference owns its own vector floor/ceiling table and derives prefix widths from it; '
             'HelloRetryRequest is not judged (no published layout matches).',
        design='3 (C06)'),
    'C07': dict(
        technique='differential testing against an independent RFC 4251/4253/4419/5656/8709 + PROTOCOL.certkeys '
                  'reference codec (vf/ref/ssh.py) with Hypothesis models; binary packets are judged by a validity '
                  'predicate (multiple of 8, padding 4..255, packet_length) and parsed with every conformant padding',
        text='~30k (thorough ~500k) models of banners, KEXINIT, DH/GEX messages, disconnect, host keys of all four '
             'types at boundary bit lengths and v00/v01 certificates, plus 4000 (all 35001) payload lengths for the '
             'padding rule; compose == reference, parse(reference) recovers the model.',
        note='The reference reproduces the RFC 4251 examples and a real OpenSSH certificate; v00 layout from OpenSSH 5.4-6.x.',
        design='3 (C07)'),
    'C10': dict(
        technique='exhaustive enumeration of every 1- and 2-byte code space (factories, IntEnum carriers, fallback '
                  'classes) and seeded sampling of 3-/4-byte spaces and of codes inside list containers; oracle: member '
                  '-> exactly that member and the same bytes back, otherwise preserved verbatim or InvalidValue; alias '
                  'scan over every enum table',
        text='16 factories, 57 carriers, 14 list containers, 12 name lists, 26 string enums: quick enumerates all '
             '1-/2-byte standalone spaces completely (~950k evaluations), thorough every 2^16 space inside every '
             'carrier and container and all 2^24 SSL 2.0 cipher kinds (~21M). Exact on the enumerated spaces.',
        note='SSH message numbers 30..49 may be shared by rule (RFC 4250 4.1.2); cryptodatahub tables are checked as installed.',
        design='3 (C10)'),
    'C15': dict(
        technique='differential testing: client hellos encoded by the independent reference, parsed by the library, '
                  'ja3() compared with an independent 100-line JA3 reader over the wire bytes; strata by construction '
                  '(no GREASE/SCSV suites vs. with) and classification of a mismatch by exactly one documented deviation',
        text='~28k (thorough ~600k) hellos over any version, ordered known/unknown/GREASE/SCSV suites, parsed, unparsed '
             'and GREASE extensions, group and point-format lists; also ja3 stability under compose+parse.',
        note='One-byte GREASE-like point-format values are not judged (the published definition has no 1-byte table).',
        design='3 (C15)'),
    'C16': dict(
        technique='differential testing against definitions computed with hashlib/base64 over reference-encoded wire '
                  'bytes (independent name-list reader for HASSH; RFC 4253 blob for fingerprints and known_hosts)',
        text='~20k (thorough ~400k) KEXINIT and host key / certificate models: hassh, hassh_server, SHA-256/SHA-1/MD5 '
             'fingerprints and known_hosts for parsed and constructed objects.',
        note='B is the whole certificate blob for certificates, as the property states.',
        design='3 (C16)'),
    'C18': dict(
        technique='grammar-based metamorphic testing: Hypothesis models of semantic values, a canonical speller, and '
                  're-spellings along the dimensions the governing RFC text declares insignificant (name case, OWS/WSP, '
                  'empty elements, order, token vs quoted-string, unknown directives); oracle = structural equality '
                  'with the canonical parse; header blocks compared with an independent CRLF/colon split',
        text='~69k (thorough ~1.1M) variants over 74 (type, dimension) pairs and 5 header-line dimensions for HSTS, '
             'Expect-CT, Expect-Staple, HPKP, Cache-Control, Set-Cookie, Content-Type, X-XSS-Protection, CSP, NEL, '
             'DMARC, MTA-STS, TLSRPT, SPF and the enum/date valued headers, plus ~1800 (29k) header blocks with '
             'known/unknown/corrupted fields. A dimension is enabled only where the RFC sentence cited next to it in '
             'vf/gen/textgen.py declares the variation insignificant.',
        note='The table of enabled dimensions with citations is the soundness argument (DESIGN 3 C18).',
        design='3 (C18)'),
    'C19': dict(
        technique='deterministic work metering with sys.monitoring (interpreter LINE events, frame depth) on scalable '
                  'input shapes at n, 2n, 4n, 8n: marginal-cost doubling test plus an absolute per-byte bound; generic '
                  'pumped shapes from seeds of every class and seeded mutants against the absolute bound',
        text='90 hand-written scalable shapes (many items with correct length prefixes, many headers/directives/terms, '
             'one huge value, no separator, separator runs, maximal declared counts with little data, huge digit '
             'strings) and ~6 (thorough 60) generic pumped shapes plus 12 (600) mutants per concrete class; the marginal '
             'number of interpreter steps per added byte must not grow between n..2n and 4n..8n, every input stays '
             'under 20000 + 6000 steps/byte, frame depth does not grow with n. '
             ' Declared-amount probes: every fixed-width quantity the parser reads from an accepted seed is set to'
             ' a quarter of and to the whole maximum (with and without data behind it) and the two parses must cost'
             ' about the same; list shapes exist with repeated items, with distinct items and with each member of'
             ' the separator set.',
        note='Interpreter-level steps only: C-level copying inside slices is invisible to the meter (stated limit).',
        design='3 (C19)'),
    'C08': dict(
        technique='differential testing against an independent RFC reference codec (vf/ref/dns.py): Hypothesis-generated '
                  'plain-data models + a seeded boundary grid; compose == reference RDATA, parse(reference) recovers '
                  'the model, key_tag == RFC 4034 Appendix B transcription',
        text='~31k (thorough ~460k) models of DNSKEY (all supported algorithms x flag subsets, RSA exponent length '
             'forms, boundary moduli, real curve points with leading-zero coordinates, Ed25519/Ed448), DS, RRSIG '
             '(private types, full 32-bit times), MX, TXT (multi-string, >255) and names are encoded by a reference '
             'written from the RFC text and compared byte for byte in both directions; key tags for even and odd RDATA.',
        note='The reference codec is a second implementation by the same reader of the RFCs; it reproduces the key '
             'tags printed in RFC 4034/5702/5933/6605/8080.',
        design='3 (C08)'),
    'C09': dict(
        technique='differential testing against an independent reference codec (vf/ref/app.py) for MySQL, TPKT/X.224/RDP, '
                  'OpenVPN, PostgreSQL and hand-written BER for LDAP: compose == reference, parse(reference) recovers '
                  'the model and the PDU class, cross-parsing request/response must be refused',
        text='~31k (thorough ~460k) models over all capability/status subsets, character sets, result codes, '
             'packet-id arrays, references and flag subsets; every reference encoding is also fed to the opposite '
             'parser (request vs confirm/response), which must raise rather than return an object of the wrong kind.',
        note='MySQL auth-plugin-data region where published documentation versions disagree is judged by round trip only.',
        design='3 (C09)'),
}

NOT_YET = {}


def main():
    with open(os.path.join(HERE, 'properties.jsonl')) as handle:
        ids = [json.loads(line)['id'] for line in handle if line.strip()]
    checks = []
    not_applicable = []
    for prop_id in ids:
        if prop_id in CHECKS:
            spec = CHECKS[prop_id]
            checks.append({
                'property_id': prop_id,
                'quick_cmd': './check %s --tier quick' % prop_id,
                'thorough_cmd': './check %s --tier thorough' % prop_id,
                'evidence_file': 'evidence/%s.json' % prop_id,
                'replay_cmd_template': './check %s --replay {path}' % prop_id,
                'engine': 'vf',
                'level_claimed': {'category': spec.get('category', 'exploration'), 'text': spec['text'],
                                  'design_ref': 'DESIGN.md section ' + spec['design']},
                'level_note': spec['note'],
                'technique': spec['technique'],
            })
        else:
            not_applicable.append({
                'property_id': prop_id,
                'reason': NOT_YET.get(prop_id, 'check not built yet in this session (in progress; see DESIGN.md section 8 '
                                               'for the implementation order) - the technique does apply'),
            })
    manifest = {
        'version': 1,
        'setup_cmd': 'sh tools/setup.sh',
        'hooks': {
            'guard': 'CRYPTOPARSER_VERIF',
            'enable': 'no hooks exist: the checks observe public entry points and interpreter events only; '
                      'CRYPTOPARSER_VERIF=1 is exported by ./check for completeness',
            'baseline_off_cmd': 'cd /repo && /venv/bin/python -m pytest -ra -q -p no:cacheprovider --timeout=900 '
                                '--continue-on-collection-errors',
            'source_commits': [],
            'add_only': True,
        },
        'engines': [{
            'name': 'vf', 'path': 'vf/', 'serves_properties': sorted(CHECKS),
            'kind_free_text': 'property-based testing / fuzzing framework: Hypothesis strategies, seeded byte '
                              'mutators, exhaustive enumeration of finite code spaces, independent reference '
                              'codecs as oracles, atheris campaigns in thorough tiers',
        }],
        'checks': checks,
        'not_applicable': not_applicable,
        'notes': 'All checks: cwd=/verif, ./check <ID> --tier quick|thorough, VERIF_SEED honoured, evidence rewritten '
                 'on every run, exit 2 = harness error. Known findings: known_findings.json.',
    }
    with open(os.path.join(HERE, 'MANIFEST.json'), 'w') as handle:
        json.dump(manifest, handle, indent=1)
        handle.write('\n')
    print('MANIFEST.json: %d checks, %d not_applicable' % (len(checks), len(not_applicable)))


if __name__ == '__main__':
    main()
