#!/usr/bin/env python3
"""Developer tool: take a seeded change produced by an independent sub-agent (/tmp/seedout/<ID>/<X>/{patch.diff,demo.py,
notes.md}), verify it (tools/run_seeded.py) against the given checks and, when it is a valid seeded change (demo 0 -> 1,
suite at baseline), keep it as /verif/seeded/<ID>-<X>/ with meta.json.
    intake_seeded.py <ID> <X> [extra check ids...]"""
import json, os, re, shutil, subprocess, sys
HERE = os.path.dirname(os.path.dirname(os.path.abspath(__file__)))
prop, label = sys.argv[1], sys.argv[2]
extra = sys.argv[3:]
src = '/tmp/%s/%s/%s' % ({'A': 'seedout', 'B': 'seedout', 'C': 'seedout2', 'D': 'seedout2', 'E': 'seedout3', 'F': 'seedout3', 'L': 'seedout6', 'M': 'seedout6'}.get(label, 'seedout4'), prop, label)
dst = os.path.join(HERE, 'seeded', '%s-%s' % (prop, label))
os.makedirs(dst, exist_ok=True)
for name in ('patch.diff', 'demo.py', 'notes.md'):
    shutil.copy(os.path.join(src, name), os.path.join(dst, name))
checks = [prop] + [c for c in extra if c != prop]
out = subprocess.run([sys.executable, os.path.join(HERE, 'tools', 'run_seeded.py'), dst] + checks, stdout=subprocess.PIPE).stdout.decode()
result = json.loads(out.strip().splitlines()[-1])
patch = open(os.path.join(dst, 'patch.diff')).read()
files = sorted(set(re.findall(r'^\+\+\+ b/(\S+)', patch, re.M)))
notes = open(os.path.join(dst, 'notes.md')).read()
valid = result.get('demo_clean') == 0 and result.get('demo_changed') == 1 and '637 passed' in result.get('suite', '') and '7 failed' in result.get('suite', '')
meta_path = os.path.join(dst, 'meta.json')
meta = json.load(open(meta_path)) if os.path.exists(meta_path) else {}
meta.update({
    'property': prop, 'site': ', '.join(files),
    'needs': meta.get('needs') or ' '.join(notes.split())[:600],
    'origin': 'fresh sub-agent given the property text(s), the list of sites used before and a scratch worktree of /repo',
    'verified': {'demo_on_clean_tree_exit': result.get('demo_clean'), 'demo_with_change_exit': result.get('demo_changed'),
                 'repository_suite_with_change': result.get('suite'), 'valid': valid},
    'ran': 'tools/run_seeded.py seeded/%s-%s %s   (quick tier, VERIF_SEED=%s, scratch worktree of /repo HEAD + patch)' % (
        prop, label, ' '.join(checks), os.environ.get('VERIF_SEED', '1')),
})
caught = meta.setdefault('caught_by', {})
missed = meta.setdefault('not_caught_by', [])
for check, res in result.get('checks', {}).items():
    if res['exit'] == 1:
        caught[check] = res['new_keys']
        if check in missed:
            missed.remove(check)
    elif check not in missed and check not in caught:
        missed.append(check)
json.dump(meta, open(meta_path, 'w'), indent=1, sort_keys=True)
print(prop, label, 'valid' if valid else 'INVALID', {c: (r['exit'], r['new_keys'][:3], r['wall_s']) for c, r in result.get('checks', {}).items()}, result.get('suite'))
