#!/bin/sh
# Offline setup: nothing is built; make sure the two third-party tools the checks use are importable.
set -e
cd "$(dirname "$0")/.."
WHEELS=/opt/veriftools/wheels
/venv/bin/python -c "import hypothesis" 2>/dev/null || \
    /venv/bin/pip install -q --no-index --find-links "$WHEELS" hypothesis
mkdir -p .deps .cache evidence
/venv/bin/python -c "import sys; sys.path.append('.deps'); import atheris" 2>/dev/null || \
    /venv/bin/pip install -q --no-index --find-links "$WHEELS" --target .deps --no-deps atheris || \
    echo "setup: atheris not installable; thorough tiers fall back to seeded mutators only"
/venv/bin/python -c "import hypothesis, cryptoparser; print('setup ok: hypothesis', hypothesis.__version__)"
