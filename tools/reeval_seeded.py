#!/usr/bin/env python3
"""Developer tool: re-run tools/run_seeded.py for every kept seeded change (own property's check, quick tier) against
/repo's current HEAD and update caught_by / not_caught_by in its meta.json.   reeval_seeded.py [parallel=4] [ids...]
With REEVAL_KEEP_META=1 the metas are left alone (runs at another VERIF_SEED, to find catches that depend on the seed)."""
import concurrent.futures, glob, json, os, subprocess, sys
HERE = os.path.dirname(os.path.dirname(os.path.abspath(__file__)))
parallel = int(sys.argv[1]) if len(sys.argv) > 1 else 4
only = sys.argv[2:]


def one(directory):
    meta_path = os.path.join(directory, 'meta.json')
    meta = json.load(open(meta_path))
    prop = meta['property']
    out = subprocess.run([sys.executable, os.path.join(HERE, 'tools', 'run_seeded.py'), directory, prop],
                         stdout=subprocess.PIPE).stdout.decode()
    result = json.loads(out.strip().splitlines()[-1])
    res = result.get('checks', {}).get(prop, {})
    ok = result.get('patch_applies') and result.get('demo_clean') == 0 and result.get('demo_changed') == 1 and '637 passed' in result.get('suite', '')
    if res.get('exit') == 1:
        meta.setdefault('caught_by', {})[prop] = res['new_keys']
        if prop in meta.get('not_caught_by', []):
            meta['not_caught_by'].remove(prop)
    else:
        meta.setdefault('caught_by', {}).pop(prop, None)
        if prop not in meta.setdefault('not_caught_by', []):
            meta['not_caught_by'].append(prop)
    meta['last_evaluated_at_repo_commit'] = subprocess.run(['git', '-C', '/repo', 'rev-parse', '--short', 'HEAD'], stdout=subprocess.PIPE).stdout.decode().strip()
    meta['verified']['valid'] = bool(ok)
    if not os.environ.get('REEVAL_KEEP_META'):
        json.dump(meta, open(meta_path, 'w'), indent=1, sort_keys=True)
    return os.path.basename(directory), bool(ok), res.get('exit'), res.get('new_keys', [])[:2], res.get('wall_s')


dirs = sorted(d for d in glob.glob(os.path.join(HERE, 'seeded', '*')) if os.path.isdir(d) and (not only or os.path.basename(d) in only))
with concurrent.futures.ThreadPoolExecutor(parallel) as pool:
    for row in pool.map(one, dirs):
        print(*row, flush=True)
