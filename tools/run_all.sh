#!/bin/sh
# Developer tool: run every registered quick check once and summarise.
cd "$(dirname "$0")/.."
for id in $(python3 -c "import json; print(' '.join(c['property_id'] for c in json.load(open('MANIFEST.json'))['checks']))"); do
    start=$(date +%s)
    out=$(./check "$id" --tier "${1:-quick}" 2>&1)
    code=$?
    echo "$id exit=$code $(( $(date +%s) - start ))s $(echo "$out" | grep -c '^KNOWN-FINDING') known; $(echo "$out" | grep '^VIOLATION' | head -3 | tr '\n' ' ')"
done
